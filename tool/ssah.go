package main

import (
	"fmt"
	"go/constant"
	"go/token"
	"go/types"
	"sort"
	"strings"

	"golang.org/x/tools/go/ssa"
)

// ---------------------------------------------------------------------------
// Instruction-level reachability

func idxOf(i ssa.Instruction) int {
	b := i.Block()
	for k, j := range b.Instrs {
		if j == i {
			return k
		}
	}
	return -1
}

type iPred func(ssa.Instruction) bool

// reachAvoid reports whether some CFG path starting right after `from`
// (or at the function entry when from is nil) reaches an instruction satisfying
// `to` without first executing an instruction satisfying `avoid`. The returned
// trail lists the blocks of one such path.
func reachAvoid(fn *ssa.Function, from ssa.Instruction, to, avoid iPred) (bool, []string) {
	type st struct {
		b     *ssa.BasicBlock
		start int
	}
	visited := map[*ssa.BasicBlock]bool{}
	parent := map[*ssa.BasicBlock]*ssa.BasicBlock{}
	var queue []st
	var startB *ssa.BasicBlock
	if from == nil {
		if len(fn.Blocks) == 0 {
			return false, nil
		}
		queue = append(queue, st{fn.Blocks[0], 0})
		visited[fn.Blocks[0]] = true
		startB = fn.Blocks[0]
	} else {
		queue = append(queue, st{from.Block(), idxOf(from) + 1})
		startB = from.Block()
	}
	mk := func(b *ssa.BasicBlock) []string {
		var tr []string
		for x := b; x != nil; x = parent[x] {
			tr = append(tr, fmt.Sprintf("block %d (%s)", x.Index, x.Comment))
			if x == startB && parent[x] == nil {
				break
			}
		}
		for i, j := 0, len(tr)-1; i < j; i, j = i+1, j-1 {
			tr[i], tr[j] = tr[j], tr[i]
		}
		return tr
	}
	for len(queue) > 0 {
		s := queue[0]
		queue = queue[1:]
		blocked := false
		for k := s.start; k < len(s.b.Instrs); k++ {
			in := s.b.Instrs[k]
			if to != nil && to(in) {
				return true, mk(s.b)
			}
			if avoid != nil && avoid(in) {
				blocked = true
				break
			}
		}
		if blocked {
			continue
		}
		for _, succ := range s.b.Succs {
			if !visited[succ] {
				visited[succ] = true
				if _, ok := parent[succ]; !ok && succ != startB {
					parent[succ] = s.b
				}
				queue = append(queue, st{succ, 0})
			}
		}
	}
	return false, nil
}

func isReturn(i ssa.Instruction) bool { _, ok := i.(*ssa.Return); return ok }

// blockReach computes the blocks reachable from the entry when the CFG edge
// (fromBlk -> its succIdx-th successor) is removed.
func reachWithoutEdge(fn *ssa.Function, fromBlk *ssa.BasicBlock, succIdx int) map[*ssa.BasicBlock]bool {
	seen := map[*ssa.BasicBlock]bool{}
	var stack []*ssa.BasicBlock
	if len(fn.Blocks) == 0 {
		return seen
	}
	stack = append(stack, fn.Blocks[0])
	seen[fn.Blocks[0]] = true
	for len(stack) > 0 {
		b := stack[len(stack)-1]
		stack = stack[:len(stack)-1]
		for k, s := range b.Succs {
			if b == fromBlk && k == succIdx {
				continue
			}
			if !seen[s] {
				seen[s] = true
				stack = append(stack, s)
			}
		}
	}
	return seen
}

// Lit is a branch literal: the condition of an If and the polarity of the edge.
type Lit struct {
	If   *ssa.If
	Cond ssa.Value
	Val  bool
}

type guardInfo struct {
	fn     *ssa.Function
	perBlk map[*ssa.BasicBlock][]Lit
}

var guardCache = map[*ssa.Function]*guardInfo{}

// guardsOf returns the literals that hold on every path from the function entry
// to block b (edge guards computed by edge deletion + reachability).
func guardsOf(b *ssa.BasicBlock) []Lit {
	fn := b.Parent()
	gi := guardCache[fn]
	if gi == nil {
		gi = &guardInfo{fn: fn, perBlk: map[*ssa.BasicBlock][]Lit{}}
		all := reachWithoutEdge(fn, nil, -1)
		for _, x := range fn.Blocks {
			if len(x.Instrs) == 0 {
				continue
			}
			ifi, ok := x.Instrs[len(x.Instrs)-1].(*ssa.If)
			if !ok || len(x.Succs) != 2 || x.Succs[0] == x.Succs[1] {
				continue
			}
			for k := 0; k < 2; k++ {
				r := reachWithoutEdge(fn, x, k)
				for _, y := range fn.Blocks {
					if all[y] && !r[y] {
						gi.perBlk[y] = append(gi.perBlk[y], Lit{If: ifi, Cond: ifi.Cond, Val: k == 0})
					}
				}
			}
		}
		guardCache[fn] = gi
	}
	return gi.perBlk[b]
}

// ---------------------------------------------------------------------------
// Atoms: normalised branch conditions

type Atom struct {
	Kind string // flag, legacy, errnil, eofcmp, cmp, call, other
	Name string
	Val  bool
	V    ssa.Value // main operand (for errnil / eofcmp: the error value)
}

func (a Atom) String() string {
	s := a.Kind
	if a.Name != "" {
		s += ":" + a.Name
	}
	if !a.Val {
		s = "!" + s
	}
	return s
}

func stripConv(v ssa.Value) ssa.Value {
	for {
		switch x := v.(type) {
		case *ssa.ChangeType:
			v = x.X
		case *ssa.Convert:
			v = x.X
		case *ssa.MakeInterface:
			v = x.X
		case *ssa.ChangeInterface:
			v = x.X
		default:
			return v
		}
	}
}

func isNilConst(v ssa.Value) bool {
	c, ok := v.(*ssa.Const)
	return ok && c.Value == nil && c.IsNil()
}

func isErrorType(t types.Type) bool {
	return t != nil && types.Identical(t, types.Universe.Lookup("error").Type())
}

// isGlobalLoad reports whether v is a load of the named package-level variable.
func isGlobalLoad(v ssa.Value, pkg, name string) bool {
	u, ok := v.(*ssa.UnOp)
	if !ok || u.Op != token.MUL {
		return false
	}
	g, ok := u.X.(*ssa.Global)
	return ok && g.Pkg != nil && g.Pkg.Pkg.Path() == pkg && g.Name() == name
}

func constUint(v ssa.Value) (uint64, bool) {
	c, ok := stripConv(v).(*ssa.Const)
	if !ok || c.Value == nil {
		return 0, false
	}
	if c.Value.Kind() != constant.Int {
		return 0, false
	}
	u, ok := constant.Uint64Val(c.Value)
	if !ok {
		i, ok2 := constant.Int64Val(c.Value)
		return uint64(i), ok2
	}
	return u, true
}

// staticCallee returns the statically resolved callee of a call instruction.
func staticCallee(c ssa.CallInstruction) *ssa.Function {
	if c == nil {
		return nil
	}
	return c.Common().StaticCallee()
}

func calleeIs(c ssa.CallInstruction, pkg, name string) bool {
	f := staticCallee(c)
	if f == nil || f.Pkg == nil {
		return false
	}
	if f.Pkg.Pkg.Path() != pkg {
		return false
	}
	if f.Name() == name {
		return true
	}
	// methods: Recv.Name
	if r := f.Signature.Recv(); r != nil {
		t := r.Type()
		if p, ok := t.(*types.Pointer); ok {
			t = p.Elem()
		}
		if n, ok := t.(*types.Named); ok {
			return n.Obj().Name()+"."+f.Name() == name
		}
	}
	return false
}

// recvTypeName returns the receiver's named type (without pointer) of a method.
func recvTypeName(f *ssa.Function) string {
	if f == nil || f.Signature.Recv() == nil {
		return ""
	}
	t := f.Signature.Recv().Type()
	if p, ok := t.(*types.Pointer); ok {
		t = p.Elem()
	}
	if n, ok := t.(*types.Named); ok {
		return n.Obj().Name()
	}
	return ""
}

const (
	pkgStream = modPath + "/internal/lz4stream"
	pkgBlock  = modPath + "/internal/lz4block"
	pkgXXH    = modPath + "/internal/xxh32"
	pkgErrors = modPath + "/internal/lz4errors"
	pkgRoot   = modPath
)

// atomOf normalises a branch literal.
var atomParamDepth int

func atomOf(cond ssa.Value, val bool) Atom {
	switch x := cond.(type) {
	case *ssa.Parameter:
		// a boolean parameter of a helper stands for the argument it receives, when every call site passes the same fact
		if g := x.Parent(); g != nil && isHelper(g) && atomParamDepth < 3 {
			idx := -1
			for i, pr := range g.Params {
				if pr == x {
					idx = i
				}
			}
			var got *Atom
			same := idx >= 0
			for _, cs := range callSitesOf(g) {
				if idx < 0 || idx >= len(cs.Common().Args) {
					same = false
					break
				}
				atomParamDepth++
				a := atomOf(cs.Common().Args[idx], val)
				atomParamDepth--
				a.V = nil
				if got == nil {
					got = &a
				} else if got.String() != a.String() {
					same = false
				}
			}
			if same && got != nil && (got.Kind == "flag" || got.Kind == "legacy" || (got.Kind == "call" && strings.HasSuffix(got.Name, "isNotConcurrent"))) {
				return *got
			}
		}
	case *ssa.UnOp:
		if x.Op == token.NOT {
			return atomOf(x.X, !val)
		}
	case *ssa.Call:
		f := staticCallee(x)
		if f != nil && f.Pkg != nil {
			if f.Pkg.Pkg.Path() == pkgStream && recvTypeName(f) == "DescriptorFlags" {
				return Atom{Kind: "flag", Name: f.Name(), Val: val}
			}
			if f.Pkg.Pkg.Path() == pkgStream && recvTypeName(f) == "Frame" && f.Name() == "isLegacy" {
				return Atom{Kind: "legacy", Val: val}
			}
			// a predicate on the magic word: f(m) with body `return m == frameMagicLegacy`, called with f.Magic
			if inModule(f) && len(f.Blocks) == 1 && len(f.Params) == 1 && len(x.Call.Args) == 1 {
				if r, isR := f.Blocks[0].Instrs[len(f.Blocks[0].Instrs)-1].(*ssa.Return); isR && len(r.Results) == 1 {
					if bo, isB := r.Results[0].(*ssa.BinOp); isB && (bo.Op == token.EQL || bo.Op == token.NEQ) {
						for _, pr := range [][2]ssa.Value{{bo.X, bo.Y}, {bo.Y, bo.X}} {
							if c, ok := constUint(pr[1]); ok && c == 0x184C2102 && pr[0] == ssa.Value(f.Params[0]) {
								if fp := fieldPathOfLoad(x.Call.Args[0]); strings.HasSuffix(fp, "Frame.Magic") {
									return Atom{Kind: "legacy", Val: (bo.Op == token.EQL) == val}
								}
							}
						}
					}
				}
			}
			return Atom{Kind: "call", Name: fname(f), Val: val, V: x}
		}
	case *ssa.BinOp:
		switch x.Op {
		case token.EQL, token.NEQ:
			eq := x.Op == token.EQL
			l, r := x.X, x.Y
			if s, ok := atomSubst[l]; ok {
				l = s
			}
			if s, ok := atomSubst[r]; ok {
				r = s
			}
			if isNilConst(r) || isNilConst(l) {
				o := l
				if isNilConst(l) {
					o = r
				}
				if isErrorType(o.Type()) {
					// (err != nil) == val  <=> errnil is (eq == val)
					return Atom{Kind: "errnil", Val: eq == val, V: o}
				}
				return Atom{Kind: "isnil", Name: shortVal(o), Val: eq == val, V: o}
			}
			if isGlobalLoad(r, "io", "EOF") || isGlobalLoad(l, "io", "EOF") {
				o := l
				if isGlobalLoad(l, "io", "EOF") {
					o = r
				}
				return Atom{Kind: "eofcmp", Val: eq == val, V: o}
			}
			// Magic == frameMagicLegacy
			if c, ok := constUint(r); ok && c == 0x184C2102 {
				if fp := fieldPathOfLoad(l); strings.HasSuffix(fp, "Frame.Magic") {
					return Atom{Kind: "legacy", Val: eq == val}
				}
			}
			// w.num == 1 is what isNotConcurrent() tests: same atom for the inlined form
			for _, pr := range [][2]ssa.Value{{l, r}, {r, l}} {
				if c, ok := constUint(pr[1]); ok && c == 1 {
					if lf := loadField(pr[0]); lf == "Writer.num" || lf == "Reader.num" {
						return Atom{Kind: "call", Name: lf + "==1:isNotConcurrent", Val: eq == val, V: x}
					}
				}
			}
			return Atom{Kind: "cmp", Name: shortVal(l) + "==" + shortVal(r), Val: eq == val, V: x}
		case token.LSS, token.LEQ, token.GTR, token.GEQ:
			return Atom{Kind: "cmp", Name: shortVal(x.X) + x.Op.String() + shortVal(x.Y), Val: val, V: x}
		}
	}
	return Atom{Kind: "other", Name: shortVal(cond), Val: val, V: cond}
}

func atomsOfBlock(b *ssa.BasicBlock) []Atom {
	out := atomsOfBlockLocal(b)
	// a helper's body also runs under the flag / legacy guards common to all its call sites
	if b != nil && b.Parent() != nil {
		out = append(out, inheritedAtoms(b.Parent(), 2, true)...)
	}
	return out
}

func atomsOfBlockLocal(b *ssa.BasicBlock) []Atom {
	var out []Atom
	for _, l := range guardsOf(b) {
		if cj := predicateConjuncts(l.Cond, l.Val); cj != nil {
			out = append(out, cj...)
			continue
		}
		out = append(out, atomOf(l.Cond, l.Val))
	}
	return out
}

// atomSubst: while the body of a predicate function is unfolded, its parameters stand for the arguments of the call.
var atomSubst = map[ssa.Value]ssa.Value{}

// predicateConjuncts: cond (taken with polarity val) is a call of a small side-effect free boolean function of the
// module that is true on exactly one path through its body, i.e. a conjunction `return a && b && ...`; the facts that
// hold when it is true are returned as atoms of their own (with the parameters replaced by the arguments), so that a
// guard moved into a predicate function reads like the guard written out. nil when cond is not of that shape.
func predicateConjuncts(cond ssa.Value, val bool) []Atom {
	for i := 0; i < 4; i++ {
		if u, ok := cond.(*ssa.UnOp); ok && u.Op == token.NOT {
			cond, val = u.X, !val
			continue
		}
		break
	}
	call, ok := cond.(*ssa.Call)
	if !ok || !val {
		return nil
	}
	f := staticCallee(call)
	if f == nil || !inModule(f) || len(f.Blocks) == 0 || len(f.Blocks) > 8 || f.Signature.Recv() != nil || len(f.Params) != len(call.Call.Args) {
		return nil
	}
	if rs := f.Signature.Results(); rs.Len() != 1 {
		return nil
	} else if bt, isB := rs.At(0).Type().Underlying().(*types.Basic); !isB || bt.Kind() != types.Bool {
		return nil
	}
	pure := true
	allInstrs(f, func(in ssa.Instruction) {
		switch x := in.(type) {
		case *ssa.Store, *ssa.Send, *ssa.Go, *ssa.Defer, *ssa.MapUpdate, *ssa.Panic:
			pure = false
		case *ssa.Call:
			// accessors of the descriptor flags are pure; anything else is not unfolded
			g := staticCallee(x)
			if g == nil || !(g.Pkg != nil && g.Pkg.Pkg.Path() == pkgStream && recvTypeName(g) == "DescriptorFlags") {
				pure = false
			}
		}
	})
	if !pure {
		return nil
	}
	for i, prm := range f.Params {
		atomSubst[prm] = call.Call.Args[i]
	}
	defer func() {
		for _, prm := range f.Params {
			delete(atomSubst, prm)
		}
	}()
	var truePaths [][]Atom
	var path []*ssa.BasicBlock
	on := map[*ssa.BasicBlock]bool{}
	var walk func(b *ssa.BasicBlock, atoms []Atom)
	walk = func(b *ssa.BasicBlock, atoms []Atom) {
		if on[b] || len(truePaths) > 1 {
			return
		}
		on[b] = true
		path = append(path, b)
		defer func() { on[b] = false; path = path[:len(path)-1] }()
		if r, isR := b.Instrs[len(b.Instrs)-1].(*ssa.Return); isR {
			v := r.Results[0]
			for k := 0; k < 4; k++ {
				ph, isPhi := v.(*ssa.Phi)
				if !isPhi {
					break
				}
				var sel ssa.Value
				for j := 1; j < len(path); j++ {
					if path[j] == ph.Block() {
						for pi, pr := range ph.Block().Preds {
							if pr == path[j-1] {
								sel = ph.Edges[pi]
							}
						}
					}
				}
				if sel == nil {
					break
				}
				v = sel
			}
			if k, isK := v.(*ssa.Const); isK && k.Value != nil && k.Value.Kind() == constant.Bool {
				if constant.BoolVal(k.Value) {
					truePaths = append(truePaths, append([]Atom{}, atoms...))
				}
				return
			}
			truePaths = append(truePaths, append(append([]Atom{}, atoms...), atomOf(v, true)))
			return
		}
		ifi, isIf := b.Instrs[len(b.Instrs)-1].(*ssa.If)
		for k, su := range b.Succs {
			next := atoms
			if isIf && len(b.Succs) == 2 {
				next = append(append([]Atom{}, atoms...), atomOf(ifi.Cond, k == 0))
			}
			walk(su, next)
		}
	}
	walk(f.Blocks[0], nil)
	if len(truePaths) != 1 {
		return nil
	}
	return truePaths[0]
}

func hasAtom(as []Atom, kind, name string, val bool) bool {
	for _, a := range as {
		if a.Kind == kind && (name == "" || a.Name == name) && a.Val == val {
			return true
		}
	}
	return false
}

func atomStrings(as []Atom) []string {
	var s []string
	for _, a := range as {
		s = append(s, a.String())
	}
	sort.Strings(s)
	return s
}

// shortVal gives a compact, position independent rendering of a value.
func shortVal(v ssa.Value) string {
	switch x := v.(type) {
	case *ssa.Const:
		if x.Value == nil {
			return "nil"
		}
		return x.Value.ExactString()
	case *ssa.Parameter:
		return x.Name()
	case *ssa.Global:
		return x.Name()
	case *ssa.UnOp:
		if x.Op == token.MUL {
			if fp := fieldPathOfAddr(x.X); fp != "" {
				return fp
			}
			if g, ok := x.X.(*ssa.Global); ok {
				return g.Pkg.Pkg.Name() + "." + g.Name()
			}
			return "*" + shortVal(x.X)
		}
		return x.Op.String() + shortVal(x.X)
	case *ssa.Call:
		if f := staticCallee(x); f != nil {
			return f.Name() + "()"
		}
		if x.Call.IsInvoke() {
			return x.Call.Method.Name() + "()"
		}
		if b, ok := x.Call.Value.(*ssa.Builtin); ok {
			if len(x.Call.Args) > 0 {
				return b.Name() + "(" + shortVal(x.Call.Args[0]) + ")"
			}
			return b.Name() + "()"
		}
		return "call"
	case *ssa.Convert:
		return shortVal(x.X)
	case *ssa.ChangeType:
		return shortVal(x.X)
	case *ssa.BinOp:
		return "(" + shortVal(x.X) + x.Op.String() + shortVal(x.Y) + ")"
	case *ssa.Extract:
		return shortVal(x.Tuple) + "#" + fmt.Sprint(x.Index)
	case *ssa.FieldAddr:
		return "&" + fieldPathOfAddr(x)
	case *ssa.Phi:
		return "phi"
	case *ssa.Alloc:
		if x.Comment != "" {
			return "&" + x.Comment
		}
		return "alloc"
	case *ssa.Slice:
		return shortVal(x.X) + "[:]"
	case *ssa.FreeVar:
		return x.Name()
	case *ssa.Field:
		return shortVal(x.X) + "." + fieldName(x.X.Type(), x.Field)
	}
	return v.Name()
}

func fieldName(t types.Type, i int) string {
	if p, ok := t.Underlying().(*types.Pointer); ok {
		t = p.Elem()
	}
	st, ok := t.Underlying().(*types.Struct)
	if !ok || i >= st.NumFields() {
		return "?"
	}
	return st.Field(i).Name()
}

func typeName(t types.Type) string {
	if p, ok := t.(*types.Pointer); ok {
		t = p.Elem()
	}
	if n, ok := t.(*types.Named); ok {
		return n.Obj().Name()
	}
	return t.String()
}

// fieldPathOfAddr renders an address built from FieldAddr chains as
// "Type.F1.F2" where Type is the named struct type at the root.
func fieldPathOfAddr(v ssa.Value) string {
	switch x := v.(type) {
	case *ssa.FieldAddr:
		base := x.X
		bt := base.Type()
		fn := fieldName(bt, x.Field)
		if inner := fieldPathOfAddr(base); inner != "" {
			return inner + "." + fn
		}
		return typeName(bt) + "." + fn
	case *ssa.UnOp:
		// pointer loaded from a field: w.frame -> *Frame
		if x.Op == token.MUL {
			return ""
		}
	}
	return ""
}

// fieldPathOfLoad: for a value that is a load *addr, the field path of addr.
func fieldPathOfLoad(v ssa.Value) string {
	v = stripConv(v)
	if u, ok := v.(*ssa.UnOp); ok && u.Op == token.MUL {
		return fieldPathOfAddr(u.X)
	}
	if f, ok := v.(*ssa.Field); ok {
		return typeName(f.X.Type()) + "." + fieldName(f.X.Type(), f.Field)
	}
	return ""
}

// loadField: for a load of a struct field, "Type.Field" with Type the struct
// type that directly contains the field (innermost), else "".
func loadField(v ssa.Value) string { return loadFieldD(v, 2) }

func loadFieldD(v ssa.Value, depth int) string {
	v = stripConv(v)
	if u, ok := v.(*ssa.UnOp); ok && u.Op == token.MUL {
		return lastField(u.X)
	}
	if f, ok := v.(*ssa.Field); ok {
		return typeName(f.X.Type()) + "." + fieldName(f.X.Type(), f.Field)
	}
	// a parameter of an unexported module helper that receives the field's value at every call
	if prm, ok := v.(*ssa.Parameter); ok && depth > 0 {
		g := prm.Parent()
		if g == nil || g.Parent() != nil || !inModule(g) || g.Object() == nil || g.Object().Exported() {
			return ""
		}
		idx := -1
		for i, pr := range g.Params {
			if pr == prm {
				idx = i
			}
		}
		sites := callSitesOf(g)
		if idx < 0 || len(sites) == 0 {
			return ""
		}
		out := ""
		for i, cs := range sites {
			if idx >= len(cs.Common().Args) {
				return ""
			}
			lf := loadFieldD(cs.Common().Args[idx], depth-1)
			if lf == "" || (i > 0 && lf != out) {
				return ""
			}
			out = lf
		}
		return out
	}
	return ""
}

// forwardTarget: fn does nothing but hand (loads of fields of) its receiver and its parameters to one module
// function and return that function's results; rules anchored on fn then look at the callee.
func forwardTarget(fn *ssa.Function) *ssa.Function {
	if fn == nil || len(fn.Blocks) != 1 {
		return nil
	}
	var call *ssa.Call
	for _, in := range fn.Blocks[0].Instrs {
		switch x := in.(type) {
		case *ssa.FieldAddr, *ssa.UnOp, *ssa.Extract, *ssa.DebugRef, *ssa.Field:
		case *ssa.Call:
			if call != nil {
				return nil
			}
			call = x
		case *ssa.Return:
			if call == nil {
				return nil
			}
			for _, r := range x.Results {
				ok := r == ssa.Value(call)
				if ex, isE := r.(*ssa.Extract); isE && ex.Tuple == ssa.Value(call) {
					ok = true
				}
				if !ok {
					return nil
				}
			}
		default:
			return nil
		}
	}
	if call == nil {
		return nil
	}
	t := staticCallee(call)
	if t == nil || !inModule(t) || t.Pkg != fn.Pkg || len(t.Blocks) == 0 || t == fn {
		return nil
	}
	if t.Object() != nil && t.Object().Exported() {
		return nil
	}
	return t
}

// lastField returns "Type.Field" of the innermost FieldAddr of an address.
func lastField(v ssa.Value) string {
	if x, ok := v.(*ssa.FieldAddr); ok {
		return typeName(x.X.Type()) + "." + fieldName(x.X.Type(), x.Field)
	}
	return ""
}

// ---------------------------------------------------------------------------
// Value provenance (backward def-use closure)

// walkBack visits v and everything it may derive from, following phis,
// conversions, slices, extracts, loads of local cells (all stores), field reads
// (Field of a struct value), binary operations when arith is true. visit
// returns false to stop descending below a value.
func walkBack(v ssa.Value, arith bool, visit func(ssa.Value) bool) {
	seen := map[ssa.Value]bool{}
	var rec func(v ssa.Value)
	rec = func(v ssa.Value) {
		if v == nil || seen[v] {
			return
		}
		seen[v] = true
		if !visit(v) {
			return
		}
		switch x := v.(type) {
		case *ssa.Phi:
			for _, e := range x.Edges {
				rec(e)
			}
		case *ssa.Convert:
			rec(x.X)
		case *ssa.ChangeType:
			rec(x.X)
		case *ssa.ChangeInterface:
			rec(x.X)
		case *ssa.MakeInterface:
			rec(x.X)
		case *ssa.Slice:
			rec(x.X)
		case *ssa.Extract:
			rec(x.Tuple)
		case *ssa.TypeAssert:
			rec(x.X)
		case *ssa.UnOp:
			if x.Op == token.MUL {
				if a, ok := x.X.(*ssa.Alloc); ok {
					for _, st := range storesTo(a) {
						rec(st.Val)
					}
					return
				}
				rec(x.X)
				return
			}
			rec(x.X)
		case *ssa.BinOp:
			if arith {
				rec(x.X)
				rec(x.Y)
			}
		case *ssa.Field:
			rec(x.X)
		case *ssa.IndexAddr:
			rec(x.X)
		case *ssa.FieldAddr:
			// stop: field addresses are origins
		case *ssa.Parameter:
			// a helper's parameter derives from the arguments at its call sites
			if f := x.Parent(); isHelper(f) {
				idx := -1
				for i, prm := range f.Params {
					if prm == x {
						idx = i
					}
				}
				if idx >= 0 {
					for _, ci := range callSitesOf(f) {
						if a := ci.Common().Args; idx < len(a) {
							rec(a[idx])
						}
					}
				}
			}
		}
	}
	rec(v)
}

// storesTo lists the stores whose address is exactly the given alloc.
func storesTo(a *ssa.Alloc) []*ssa.Store {
	var out []*ssa.Store
	refs := a.Referrers()
	if refs == nil {
		return nil
	}
	for _, r := range *refs {
		if st, ok := r.(*ssa.Store); ok && st.Addr == a {
			out = append(out, st)
		}
	}
	return out
}

// derivesFromField reports whether v may derive from a load of a field whose
// "Type.Field" path ends with suffix.
func derivesFromField(v ssa.Value, suffix string) bool {
	found := false
	walkBack(v, false, func(x ssa.Value) bool {
		if fp := loadField(x); fp != "" && fp == suffix {
			found = true
			return false
		}
		if fp := lastField(x); fp != "" && fp == suffix {
			found = true
			return false
		}
		return !found
	})
	return found
}

func derivesFromValue(v, target ssa.Value) bool {
	found := false
	walkBack(v, false, func(x ssa.Value) bool {
		if x == target {
			found = true
		}
		return !found
	})
	return found
}

// ---------------------------------------------------------------------------
// Reaching stores for address-taken local cells (named results with defers)

// reachingStores returns, for a load of an Alloc cell at instruction `at`, the
// values of the stores that may reach it (flow sensitive), and whether the
// function entry (zero value) or an unknown writer (the address passed to a call
// that may store through it) may reach it.
func reachingStores(cell *ssa.Alloc, at ssa.Instruction) (vals []ssa.Value, entry, unknown bool) {
	type st struct {
		b   *ssa.BasicBlock
		idx int
	}
	seen := map[*ssa.BasicBlock]bool{}
	var work []st
	work = append(work, st{at.Block(), idxOf(at) - 1})
	first := true
	addv := func(v ssa.Value) {
		for _, x := range vals {
			if x == v {
				return
			}
		}
		vals = append(vals, v)
	}
	for len(work) > 0 {
		s := work[len(work)-1]
		work = work[:len(work)-1]
		stopped := false
		for k := s.idx; k >= 0; k-- {
			in := s.b.Instrs[k]
			if sto, ok := in.(*ssa.Store); ok && sto.Addr == cell {
				addv(sto.Val)
				stopped = true
				break
			}
			if in == ssa.Instruction(cell) {
				entry = true
				stopped = true
				break
			}
			if ci, ok := in.(ssa.CallInstruction); ok {
				for ai, a := range ci.Common().Args {
					if a == cell {
						if mayStoreThroughArg(ci, ai) {
							unknown = true
						}
					}
				}
			}
		}
		if stopped {
			continue
		}
		if len(s.b.Preds) == 0 {
			entry = true
		}
		for _, p := range s.b.Preds {
			if !seen[p] || (first && p == at.Block()) {
				if seen[p] {
					continue
				}
				seen[p] = true
				work = append(work, st{p, len(p.Instrs) - 1})
			}
		}
		first = false
	}
	return
}

// mayStoreThroughArg: conservative check whether the callee may write through
// its ai-th argument (pointer).
func mayStoreThroughArg(ci ssa.CallInstruction, ai int) bool {
	f := staticCallee(ci)
	if f == nil || f.Blocks == nil {
		return true
	}
	common := ci.Common()
	pi := ai
	if common.IsInvoke() {
		return true
	}
	if f.Signature.Recv() != nil {
		// Args[0] is the receiver, Params[0] too.
	}
	if pi >= len(f.Params) {
		return true
	}
	p := f.Params[pi]
	stores := false
	for _, b := range f.Blocks {
		for _, in := range b.Instrs {
			switch x := in.(type) {
			case *ssa.Store:
				if derivesFromValue(x.Addr, p) {
					stores = true
				}
			case ssa.CallInstruction:
				for _, a := range x.Common().Args {
					if a == p {
						// passed on: be conservative one level only
						for aj, aa := range x.Common().Args {
							if aa == p && mayStoreThroughArgShallow(x, aj) {
								stores = true
							}
						}
					}
				}
			}
		}
	}
	return stores
}

func mayStoreThroughArgShallow(ci ssa.CallInstruction, ai int) bool {
	f := staticCallee(ci)
	if f == nil || f.Blocks == nil {
		return true
	}
	if ai >= len(f.Params) {
		return true
	}
	p := f.Params[ai]
	for _, b := range f.Blocks {
		for _, in := range b.Instrs {
			switch x := in.(type) {
			case *ssa.Store:
				if derivesFromValue(x.Addr, p) {
					return true
				}
			case ssa.CallInstruction:
				for _, a := range x.Common().Args {
					if a == p {
						return true
					}
				}
			}
		}
	}
	return false
}

// ---------------------------------------------------------------------------
// Misc

func allInstrs(fn *ssa.Function, f func(ssa.Instruction)) {
	for _, b := range fn.Blocks {
		for _, in := range b.Instrs {
			f(in)
		}
	}
}

func callsIn(fn *ssa.Function) []ssa.CallInstruction {
	var out []ssa.CallInstruction
	allInstrs(fn, func(i ssa.Instruction) {
		if c, ok := i.(ssa.CallInstruction); ok {
			out = append(out, c)
		}
	})
	return out
}

// callsTo lists call instructions in fn whose static callee satisfies the
// package/name (see calleeIs).
func callsTo(fn *ssa.Function, pkg, name string) []ssa.CallInstruction {
	var out []ssa.CallInstruction
	for _, c := range callsIn(fn) {
		if calleeIs(c, pkg, name) {
			out = append(out, c)
		}
	}
	return out
}

// withAnon returns fn and all its nested anonymous functions.
func withAnon(fn *ssa.Function) []*ssa.Function {
	out := []*ssa.Function{fn}
	for _, a := range fn.AnonFuncs {
		out = append(out, withAnon(a)...)
	}
	return out
}

func isBuiltinCall(i ssa.Instruction, name string) (*ssa.CallCommon, bool) {
	c, ok := i.(ssa.CallInstruction)
	if !ok {
		return nil, false
	}
	b, ok := c.Common().Value.(*ssa.Builtin)
	if !ok || b.Name() != name {
		return nil, false
	}
	return c.Common(), true
}

// extractOf returns the i-th result of a call value (the Extract instruction),
// or the call itself when it has a single result and i == 0.
func extractOf(call ssa.Value, i int) ssa.Value {
	if call == nil {
		return nil
	}
	if tup, ok := call.Type().(*types.Tuple); ok {
		_ = tup
		refs := call.Referrers()
		if refs == nil {
			return nil
		}
		for _, r := range *refs {
			if e, ok := r.(*ssa.Extract); ok && e.Index == i {
				return e
			}
		}
		return nil
	}
	if i == 0 {
		return call
	}
	return nil
}

// errResultIndex returns the index of the (last) error-typed result of a call.
func errResultIndex(sig *types.Signature) int {
	r := sig.Results()
	for i := r.Len() - 1; i >= 0; i-- {
		if isErrorType(r.At(i).Type()) {
			return i
		}
	}
	return -1
}

// ---------------------------------------------------------------------------
// Module-local call structure (helpers extracted by a refactoring are followed)

func inModule(f *ssa.Function) bool {
	return f != nil && f.Pkg != nil && strings.HasPrefix(f.Pkg.Pkg.Path(), modPath) && len(f.Blocks) > 0
}

// calleesOf: module functions that fn may run synchronously: static callees of
// call and defer instructions, and function literals it creates and calls or
// defers (not those it starts with go).
func calleesOf(fn *ssa.Function) []*ssa.Function {
	seen := map[*ssa.Function]bool{}
	var out []*ssa.Function
	add := func(f *ssa.Function) {
		if inModule(f) && !seen[f] {
			seen[f] = true
			out = append(out, f)
		}
	}
	allInstrs(fn, func(in ssa.Instruction) {
		ci, ok := in.(ssa.CallInstruction)
		if !ok {
			return
		}
		if _, isGo := in.(*ssa.Go); isGo {
			return
		}
		if f := staticCallee(ci); f != nil {
			add(f)
			return
		}
		if mc, isMC := ci.Common().Value.(*ssa.MakeClosure); isMC {
			if f, isF := mc.Fn.(*ssa.Function); isF {
				add(f)
			}
		}
	})
	return out
}

// reachesFn: target is reachable from fn through synchronous module calls.
func reachesFn(fn, target *ssa.Function) bool {
	seen := map[*ssa.Function]bool{}
	var rec func(f *ssa.Function) bool
	rec = func(f *ssa.Function) bool {
		if f == target {
			return true
		}
		if seen[f] {
			return false
		}
		seen[f] = true
		for _, g := range calleesOf(f) {
			if rec(g) {
				return true
			}
		}
		// direct (non-module) static callee equal to target is covered by inModule(target)
		return false
	}
	return rec(fn)
}

// goTarget: the function started by a go statement (closure or named), or nil.
func goTarget(g *ssa.Go) *ssa.Function {
	if f := g.Call.StaticCallee(); f != nil {
		return f
	}
	if mc, ok := g.Call.Value.(*ssa.MakeClosure); ok {
		if f, isF := mc.Fn.(*ssa.Function); isF {
			return f
		}
	}
	return nil
}

// deepCalls visits every call instruction reachable from fn through
// synchronous module calls (bounded depth), with the chain of call sites that
// leads to it (outermost first).
func deepCalls(fn *ssa.Function, depth int, visit func(ci ssa.CallInstruction, chain []ssa.CallInstruction)) {
	var rec func(f *ssa.Function, chain []ssa.CallInstruction, d int, onStack map[*ssa.Function]bool)
	rec = func(f *ssa.Function, chain []ssa.CallInstruction, d int, onStack map[*ssa.Function]bool) {
		for _, ci := range callsIn(f) {
			visit(ci, chain)
			if d <= 0 {
				continue
			}
			if _, isGo := ci.(*ssa.Go); isGo {
				continue
			}
			g := staticCallee(ci)
			if g == nil {
				if mc, isMC := ci.Common().Value.(*ssa.MakeClosure); isMC {
					g, _ = mc.Fn.(*ssa.Function)
				}
			}
			if inModule(g) && !onStack[g] {
				onStack[g] = true
				rec(g, append(append([]ssa.CallInstruction{}, chain...), ci), d-1, onStack)
				delete(onStack, g)
			}
		}
	}
	rec(fn, nil, depth, map[*ssa.Function]bool{fn: true})
}

// chainAtoms: guard atoms that hold at a call reached through chain: those of
// the call's own block and of every call site on the chain.
func chainAtoms(ci ssa.Instruction, chain []ssa.CallInstruction) []Atom {
	out := append([]Atom{}, atomsOfBlock(ci.Block())...)
	for _, c := range chain {
		out = append(out, atomsOfBlock(c.Block())...)
	}
	return out
}

// ---------------------------------------------------------------------------
// Call-site index and helper contexts

var siteIndex = map[*ssa.Program]map[*ssa.Function][]ssa.CallInstruction{}

// callSitesOf: synchronous, statically resolved call sites of f inside the
// module (go statements are not included).
func callSitesOf(f *ssa.Function) []ssa.CallInstruction {
	if f == nil || f.Prog == nil {
		return nil
	}
	idx, ok := siteIndex[f.Prog]
	if !ok {
		idx = map[*ssa.Function][]ssa.CallInstruction{}
		var visit func(g *ssa.Function)
		visit = func(g *ssa.Function) {
			for _, ci := range callsIn(g) {
				if _, isGo := ci.(*ssa.Go); isGo {
					continue
				}
				if t := staticCallee(ci); inModule(t) {
					idx[t] = append(idx[t], ci)
				}
			}
			for _, a := range g.AnonFuncs {
				visit(a)
			}
		}
		for _, pkg := range f.Prog.AllPackages() {
			if pkg.Pkg == nil || !strings.HasPrefix(pkg.Pkg.Path(), modPath) {
				continue
			}
			for _, m := range pkg.Members {
				if g, isF := m.(*ssa.Function); isF {
					visit(g)
				}
			}
			// methods
			for _, m := range pkg.Members {
				if t, isT := m.(*ssa.Type); isT {
					for _, typ := range []types.Type{t.Type(), types.NewPointer(t.Type())} {
						ms := f.Prog.MethodSets.MethodSet(typ)
						for i := 0; i < ms.Len(); i++ {
							if g := f.Prog.MethodValue(ms.At(i)); g != nil && g.Synthetic == "" && len(g.Blocks) > 0 {
								visit(g)
							}
						}
					}
				}
			}
		}
		// de-duplicate (methods are visited through both method sets)
		for k, v := range idx {
			seen := map[ssa.CallInstruction]bool{}
			var d []ssa.CallInstruction
			for _, ci := range v {
				if !seen[ci] {
					seen[ci] = true
					d = append(d, ci)
				}
			}
			idx[k] = d
		}
		siteIndex[f.Prog] = idx
	}
	return idx[f]
}

// isHelper: an unexported module function or method that is only ever called
// directly (never stored, passed or started with go): its body runs in the
// context of its call sites.
func isHelper(f *ssa.Function) bool {
	if !inModule(f) || f.Parent() != nil || len(callSitesOf(f)) == 0 {
		return false
	}
	if f.Object() != nil && f.Object().Exported() {
		return false
	}
	return true
}

// contextsOf: the functions in whose context f's body runs: f itself, or, for a
// helper, the contexts of its callers (bounded depth).
func contextsOf(f *ssa.Function, depth int) []*ssa.Function {
	if depth <= 0 || !isHelper(f) {
		return []*ssa.Function{f}
	}
	seen := map[*ssa.Function]bool{}
	var out []*ssa.Function
	for _, ci := range callSitesOf(f) {
		for _, g := range contextsOf(ci.Parent(), depth-1) {
			if !seen[g] {
				seen[g] = true
				out = append(out, g)
			}
		}
	}
	return out
}

// deepFuncs: fn and the helpers (see isHelper) it calls synchronously, transitively.
func deepFuncs(fn *ssa.Function, depth int) []*ssa.Function {
	seen := map[*ssa.Function]bool{fn: true}
	out := []*ssa.Function{fn}
	var rec func(f *ssa.Function, d int)
	rec = func(f *ssa.Function, d int) {
		if d <= 0 {
			return
		}
		for _, g := range calleesOf(f) {
			if !seen[g] && (isHelper(g) || g.Parent() == f) {
				seen[g] = true
				out = append(out, g)
				rec(g, d-1)
			}
		}
	}
	rec(fn, depth)
	return out
}

// allInstrsDeep / callsInDeep: like allInstrs / callsIn over deepFuncs(fn, 2).
func allInstrsDeep(fn *ssa.Function, f func(ssa.Instruction)) {
	for _, g := range deepFuncs(fn, 2) {
		allInstrs(g, f)
	}
}

func callsInDeep(fn *ssa.Function) []ssa.CallInstruction {
	var out []ssa.CallInstruction
	for _, g := range deepFuncs(fn, 2) {
		out = append(out, callsIn(g)...)
	}
	return out
}

// inheritedAtoms: flag / legacy guard atoms that hold at every call site of the
// helper f (and therefore inside it).
func inheritedAtoms(f *ssa.Function, depth int, allKinds bool) []Atom {
	if depth <= 0 || f == nil {
		return nil
	}
	if f.Parent() != nil {
		// a closure that is created and called at one place runs under the guards of that place
		var site ssa.Instruction
		n := 0
		allInstrs(f.Parent(), func(in ssa.Instruction) {
			if ci, ok := in.(ssa.CallInstruction); ok {
				if _, isGo := in.(*ssa.Go); isGo {
					return
				}
				if mc, isMC := ci.Common().Value.(*ssa.MakeClosure); isMC && mc.Fn == ssa.Value(f) {
					site = in
					n++
				}
			}
		})
		if n != 1 {
			return nil
		}
		var out []Atom
		for _, a := range atomsOfBlockLocal(site.Block()) {
			if allKinds || a.Kind == "flag" || a.Kind == "legacy" {
				out = append(out, a)
			}
		}
		return append(out, inheritedAtoms(f.Parent(), depth-1, allKinds)...)
	}
	if !isHelper(f) {
		return nil
	}
	sites := callSitesOf(f)
	var common map[string]Atom
	for _, ci := range sites {
		here := map[string]Atom{}
		for _, a := range atomsOfBlockLocal(ci.Block()) {
			if allKinds || a.Kind == "flag" || a.Kind == "legacy" {
				here[a.String()] = a
			}
		}
		for _, a := range inheritedAtoms(ci.Parent(), depth-1, allKinds) {
			here[a.String()] = a
		}
		if common == nil {
			common = here
			continue
		}
		for k := range common {
			if _, ok := here[k]; !ok {
				delete(common, k)
			}
		}
	}
	var out []Atom
	var keys []string
	for k := range common {
		keys = append(keys, k)
	}
	sort.Strings(keys)
	for _, k := range keys {
		out = append(out, common[k])
	}
	return out
}

// familyFns: root and everything that runs on its behalf: its helpers, the
// function literals inside them, the goroutines they start (closures or
// methods), and the helpers and literals of those (bounded). Rules that used to
// look at "the closures of F" look at familyFns(F)[1:], so that a closure turned
// into a method, or F split in two, is still found. The first element is root.
func familyFns(root *ssa.Function) []*ssa.Function {
	seen := map[*ssa.Function]bool{}
	var out []*ssa.Function
	var add func(f *ssa.Function, depth int)
	add = func(f *ssa.Function, depth int) {
		if f == nil || seen[f] || len(f.Blocks) == 0 || depth < 0 {
			return
		}
		seen[f] = true
		out = append(out, f)
		for _, a := range f.AnonFuncs {
			add(a, depth)
		}
		allInstrs(f, func(in ssa.Instruction) {
			if g, ok := in.(*ssa.Go); ok {
				if t := goTarget(g); t != nil && t.Pkg == root.Pkg {
					add(t, depth-1)
				}
			}
		})
		for _, g := range calleesOf(f) {
			if g.Pkg == root.Pkg && (isHelper(g) || g.Parent() != nil) && !isFamilyBoundary(g) {
				add(g, depth-1)
			}
		}
	}
	add(root, 3)
	return out
}

// isFamilyBoundary: functions that many families share (anchors of their own) are not absorbed.
func isFamilyBoundary(f *ssa.Function) bool {
	return len(callSitesOf(f)) > 3
}

// goroutinesOf: the functions started with `go` inside root's family (closures or methods).
func goroutinesOf(root *ssa.Function) []*ssa.Function {
	seen := map[*ssa.Function]bool{}
	var out []*ssa.Function
	for _, f := range familyFns(root) {
		allInstrs(f, func(in ssa.Instruction) {
			if g, ok := in.(*ssa.Go); ok {
				if t := goTarget(g); t != nil && !seen[t] && len(t.Blocks) > 0 {
					seen[t] = true
					out = append(out, t)
				}
			}
		})
	}
	return out
}
