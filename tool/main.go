// lz4verif: repository-specific static analyses deciding the properties in
// /verif/properties.jsonl for pierrec/lz4. See /verif/DESIGN.md.
package main

import (
	"encoding/json"
	"flag"
	"fmt"
	"os"
	"path/filepath"
	"runtime/debug"
	"sort"
	"strings"
)

type checkFn func(c *Check)

var checks = map[string]checkFn{}

func register(id string, f checkFn) { checks[id] = f }

var verifDir = "/verif"

func main() {
	fs := flag.NewFlagSet("lz4verif", flag.ExitOnError)
	repo := fs.String("repo", "/repo", "repository to analyse")
	vdir := fs.String("verif", "/verif", "verification directory (evidence, known findings)")
	if len(os.Args) < 2 {
		usage()
	}
	cmd := os.Args[1]
	fs.Parse(os.Args[2:])
	repoDir, _ = filepath.Abs(*repo)
	verifDir, _ = filepath.Abs(*vdir)
	args := fs.Args()
	switch cmd {
	case "check":
		if len(args) < 1 {
			usage()
		}
		tier := "quick"
		if len(args) > 1 {
			tier = args[1]
		}
		os.Exit(runCheck(args[0], tier))
	case "replay":
		if len(args) < 1 {
			usage()
		}
		os.Exit(replay(args[0]))
	case "list":
		var ids []string
		for id := range checks {
			ids = append(ids, id)
		}
		sort.Strings(ids)
		for _, id := range ids {
			fmt.Println(id)
		}
	default:
		usage()
	}
}

func usage() {
	fmt.Fprintln(os.Stderr, "usage: lz4verif check <Cxx> [quick|thorough] [-repo dir] [-verif dir] | replay <file> | list")
	os.Exit(2)
}

func runCheck(id, tier string) (code int) {
	f, ok := checks[id]
	if !ok {
		fmt.Fprintf(os.Stderr, "no check registered for %s\n", id)
		return 2
	}
	if tier != "quick" && tier != "thorough" {
		fmt.Fprintf(os.Stderr, "bad tier %q\n", tier)
		return 2
	}
	c := NewCheck(id, tier)
	defer func() {
		if r := recover(); r != nil {
			// A panic in the checker is a failure of the check, never a pass.
			fmt.Printf("CHECKER-TROUBLE: panic in %s: %v\n%s\n", id, r, debug.Stack())
			c.TroubleF("panic: %v", r)
			c.Finish(verifDir)
			code = 2
		}
	}()
	f(c)
	if tier == "thorough" {
		// the same rules again on the Go files of every other architecture family
		// (the tag-selected decoder and checksum files differ; so does the word size)
		for _, arch := range thoroughArchs {
			archSubst = arch
			goWordBits = 64
			if arch == "386" || arch == "arm" {
				goWordBits = 32
			}
			f(c)
		}
		archSubst = ""
		goWordBits = 64
		runSelftest(c)
	}
	return c.Finish(verifDir)
}

// replay re-runs the rule instance recorded in a replay file and prints the
// diagnosis for that construct only.
func replay(path string) int {
	b, err := os.ReadFile(path)
	if err != nil {
		b, err = os.ReadFile(filepath.Join(verifDir, path))
	}
	if err != nil {
		fmt.Fprintln(os.Stderr, err)
		return 2
	}
	var r struct {
		Property   string      `json:"property"`
		Tier       string      `json:"tier"`
		Obligation *Obligation `json:"obligation"`
	}
	if err := json.Unmarshal(b, &r); err != nil || r.Obligation == nil {
		fmt.Fprintln(os.Stderr, "bad replay file:", err)
		return 2
	}
	f, ok := checks[r.Property]
	if !ok {
		fmt.Fprintln(os.Stderr, "unknown property", r.Property)
		return 2
	}
	c := NewCheck(r.Property, r.Tier)
	f(c)
	code := 0
	found := false
	for _, o := range c.Obls {
		if o.Rule == r.Obligation.Rule && o.Key == r.Obligation.Key && (r.Obligation.Config == "" || o.Config == r.Obligation.Config) {
			found = true
			jb, _ := json.MarshalIndent(o, "", " ")
			fmt.Println(string(jb))
			if o.Status != Discharged {
				fmt.Printf("VIOLATION property=%s replay=%s\n", r.Property, path)
				code = 1
			}
		}
	}
	if !found {
		fmt.Printf("rule instance %s %q no longer exists in the analysed tree\n", r.Obligation.Rule, r.Obligation.Key)
	}
	return code
}

// loadOrTrouble loads a configuration and records checker trouble on failure.
func loadOrTrouble(c *Check, cfg Config) *Program {
	if archSubst != "" && cfg.GOARCH == "amd64" {
		cfg.GOARCH = archSubst
	}
	p, err := Load(cfg)
	if err != nil {
		c.TroubleF("%v", err)
		return nil
	}
	for _, s := range c.Configs {
		if s == cfg.String() {
			return p
		}
	}
	c.Configs = append(c.Configs, cfg.String())
	return p
}

var (
	cfgAMD64   = Config{GOARCH: "amd64"}
	cfgNoasm   = Config{GOARCH: "amd64", Tags: "noasm"}
	cfg386     = Config{GOARCH: "386"}
	cfgARM64   = Config{GOARCH: "arm64"}
	cfgARM     = Config{GOARCH: "arm"}
	cfgARMNo   = Config{GOARCH: "arm", Tags: "noasm"}
)

// archSubst, when set, makes every load of an amd64 configuration load the
// same configuration for that architecture instead (thorough tier).
var archSubst string

var thoroughArchs = []string{"386", "arm64", "arm"}

// cfgLabel: configuration label of an obligation recorded now.
func (c *Check) cfgLabel() string {
	if archSubst == "" {
		return c.curCfg
	}
	if c.curCfg == "" {
		return "linux/" + archSubst
	}
	return strings.Replace(c.curCfg, "amd64", archSubst, 1)
}
