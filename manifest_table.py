SA = "static analysis over go/ssa: "
claim("C02", "other", SA+"guard-atom comparison of emission vs consumption sites, legacy-guard rules, table evaluation of block-size code/pool/buffer sizes, path search for buffer hand-off, destination provenance",
      "Decides necessary conditions of every frame round trip for the whole option matrix at once (rules quantify over descriptor guards, not option values): field presence agreement between Writer and Reader, legacy neutrality, flush-before-trailer, size tables, buffer hand-off in concurrent mode, decode destination sizing, in-place compression only when nothing is pending, raw-flag pairing, enqueue order. It does not decide equality of decoded and original bytes.",
      "DESIGN.md section 4, C02")
claim("C05", "other", SA+"edge-deletion reachability of accepting returns behind checksum comparisons, guard atoms, hash-feed ordering, EOF provenance",
      "Shows that no path of the Reader reaches a clean end of stream without the header, block and content checksum comparisons having succeeded (stored and compressed blocks, Read and WriteTo, sequential and concurrent), that the content hash is fed with the delivered bytes in order, and that a missing end mark cannot look like one. Hash values themselves are not evaluated.",
      "DESIGN.md section 4, C05")
claim("C06", "other", SA+"forward provenance of the error value of every source read (9 classified read sites), synthetic-io.EOF site table, must-pass-through CloseR",
      "Decides the only way truncation can pass for completeness: an io.EOF from a mandatory field reaching the end-of-frame decision. Every read site's error is followed to all its escapes; only the first magic word and the legacy block size may yield a clean end. Prefix property of delivered bytes is not decided.",
      "DESIGN.md section 4, C06")
claim("C08", "other", SA+"lockset of the shared error latch, dominance/must-pass-through over goroutine closures (close-once, release-after-use, enqueue-before-spawn, shutdown protocol), path search for buffer ownership",
      "Decides the structural discipline the pipelines rely on, each a necessary condition of race/deadlock/leak freedom; it does not explore interleavings. Known finding F16 (workers outlive Close) is reported, not suppressed beyond its two constructs.",
      "DESIGN.md section 4, C08")
claim("C09", "other", SA+"guard atoms of emitted fields, provenance of hashed arguments, trailer layout, descriptor constants, bit-provenance of accessors, size tables",
      "Decides the shape-visible clauses of frame-format conformance (which fields, under which flags, in which order, covering which bytes, with which constants). Numeric checksum values and decoded content are not evaluated. Known findings F13 (block checksum covers uncompressed data) and F14 (legacy raw fallback).",
      "DESIGN.md section 4, C09")
claim("C15", "other", SA+"call-graph-derived set of I/O-reaching callees, discarded-error scan, path-sensitive 'pending error is never absorbed' walk (phis and named-result cells), synthetic io.EOF table, goroutine latch rules",
      "Every error result of a call that can reach the sink or the source is used, and once such a call fails every path returns a non-nil error; io.EOF is never manufactured over a pending source error; the ordering goroutine stops writing after the first sink error. Prefix property of sink contents is not decided.",
      "DESIGN.md section 4, C15")
claim("C19", "other", SA+"interval-set evaluation of the magic dispatch, edge-deletion reachability for the header acceptance gate, bit-provenance of descriptor accessors",
      "Decides symbolically, for the whole 2^25 header space, which first words and which descriptors the header parser can accept: exact value sets of the magic dispatch, check-byte and block-size gates on every accepting path, accessor bit layout, ValidFrameHeader outcome classes, content-size provenance. The numeric value of XXH32 is not evaluated (C13).",
      "DESIGN.md section 4, C19")
na("C01", "value-level equality decompress(compress(x)) == x over all byte strings depends on hash-table contents and match arithmetic that no sound static argument in reach can follow; its structural necessary conditions (offsets inside the window, literals flushed to the end, destination contract) are decided under C10 and C11")
for i in range(1, 21):
    id = "C%02d" % i
    if id not in CLAIMED and id not in NA:
        na(id, "check under construction in this session (rules planned in DESIGN.md section 4)")
