claim("C19", "other", "static analysis: interval-set evaluation of the magic dispatch, edge-deletion reachability for the header acceptance gate, bit-provenance of descriptor accessors over go/ssa",
      "Decides symbolically, for the whole 2^25 header space, which first words and which descriptors the header parser can accept: exact value sets of the magic dispatch, check-byte and block-size gates on every accepting path, accessor bit layout, ValidFrameHeader outcome classes, content-size provenance. The numeric value of XXH32 is not evaluated (C13).",
      "DESIGN.md section 4, C19")
for i in range(1, 21):
    id = "C%02d" % i
    if id not in CLAIMED:
        na(id, "check under construction in this session (see DESIGN.md section 4 for the planned rules); C01 stays not applicable: value-level round trip")
