SA = "static analysis over go/ssa: "
claim("C02", "other", SA+"guard-atom comparison of emission vs consumption sites, legacy-guard rules, table evaluation of block-size code/pool/buffer sizes, path search for buffer hand-off, destination provenance",
      "Decides necessary conditions of every frame round trip for the whole option matrix at once (rules quantify over descriptor guards, not option values): field presence agreement between Writer and Reader, legacy neutrality, flush-before-trailer, size tables, buffer hand-off in concurrent mode, decode destination sizing, in-place compression only when nothing is pending, raw-flag pairing, enqueue order. It does not decide equality of decoded and original bytes.",
      "DESIGN.md section 4, C02")
claim("C05", "other", SA+"edge-deletion reachability of accepting returns behind checksum comparisons, guard atoms, hash-feed ordering, EOF provenance",
      "Shows that no path of the Reader reaches a clean end of stream without the header, block and content checksum comparisons having succeeded (stored and compressed blocks, Read and WriteTo, sequential and concurrent), that the content hash is fed with the delivered bytes in order, and that a missing end mark cannot look like one. Hash values themselves are not evaluated.",
      "DESIGN.md section 4, C05")
claim("C06", "other", SA+"forward provenance of the error value of every source read (9 classified read sites), synthetic-io.EOF site table, must-pass-through CloseR",
      "Decides the only way truncation can pass for completeness: an io.EOF from a mandatory field reaching the end-of-frame decision. Every read site's error is followed to all its escapes; only the first magic word and the legacy block size may yield a clean end. Prefix property of delivered bytes is not decided.",
      "DESIGN.md section 4, C06")
claim("C08", "other", SA+"lockset of the shared error latch, dominance/must-pass-through over goroutine closures (close-once, release-after-use, enqueue-before-spawn, shutdown protocol), path search for buffer ownership",
      "Decides the structural discipline the pipelines rely on, each a necessary condition of race/deadlock/leak freedom; it does not explore interleavings. Known finding F16 (workers outlive Close) is reported, not suppressed beyond its two constructs.",
      "DESIGN.md section 4, C08")
claim("C09", "other", SA+"guard atoms of emitted fields, provenance of hashed arguments, trailer layout, descriptor constants, bit-provenance of accessors, size tables",
      "Decides the shape-visible clauses of frame-format conformance (which fields, under which flags, in which order, covering which bytes, with which constants). Numeric checksum values and decoded content are not evaluated. Known findings F13 (block checksum covers uncompressed data) and F14 (legacy raw fallback).",
      "DESIGN.md section 4, C09")
claim("C15", "other", SA+"call-graph-derived set of I/O-reaching callees, discarded-error scan, path-sensitive 'pending error is never absorbed' walk (phis and named-result cells), synthetic io.EOF table, goroutine latch rules",
      "Every error result of a call that can reach the sink or the source is used, and once such a call fails every path returns a non-nil error; io.EOF is never manufactured over a pending source error; the ordering goroutine stops writing after the first sink error. Prefix property of sink contents is not decided.",
      "DESIGN.md section 4, C15")
claim("C19", "other", SA+"interval-set evaluation of the magic dispatch, edge-deletion reachability for the header acceptance gate, bit-provenance of descriptor accessors",
      "Decides symbolically, for the whole 2^25 header space, which first words and which descriptors the header parser can accept: exact value sets of the magic dispatch, check-byte and block-size gates on every accepting path, accessor bit layout, ValidFrameHeader outcome classes, content-size provenance. The numeric value of XXH32 is not evaluated (C13).",
      "DESIGN.md section 4, C19")
claim("C07", "other", SA+"SCC search on the VTA call graph for input-driven recursion, interval-set evaluation of the magic dispatch, guard dominance for the block-size check, provenance of allocation sizes, shutdown-protocol must-pass rules, error-absorption walk",
      "Decides the shape-visible clauses of safe termination on arbitrary input: no recursion whose depth the input controls, exact magic dispatch, block size checked against the pooled buffer before use, no input-sized allocation, Get total, reader goroutines always shut down, failures always surface. Liveness under all schedules and decoder panics (C03) are not decided here.",
      "DESIGN.md section 4, C07")
claim("C12", "other", "static analysis: exhaustive build-constraint evaluation with go/build's matcher; use analysis of the decoder result in go/ssa; immediates of the assembly result stores",
      "Decides that exactly one decoder implementation is selected in every build configuration and that error codes of the two implementations are unobservable (sign only); shared numeric postconditions are added by the bounds prover. Equality of decoded bytes is not decided.",
      "DESIGN.md section 4, C12")
claim("C13", "other", SA+"field-width and store-shape rules for the running length, canonical expression trees matched against the XXH32 specification's constants per phase, linear normal form of the buffering guard; build-constraint evaluation",
      "Decides the structure in which XXH32 implementations go wrong: full-width length in the formula choice, length bookkeeping, primes/rotations/multipliers per phase in the streaming and one-shot code, lane seeds, avalanche order, buffer-full discipline, one definition per build configuration. Equality with the reference for all inputs is not decided.",
      "DESIGN.md section 4, C13")
claim("C14", "other", SA+"must-pass-through of table resets before table accesses, guard-exactness of the HC reset, reachability scan for nondeterminism sources, who-may-call for sink writes",
      "Decides absence of hidden state and scheduling influence in the shape of the code: resets dominate all table accesses, the HC reset flag is unconditional and single-writer, no nondeterministic construct is reachable from the compressors, ordered hand-off, single sink writer, block boundaries independent of Write partitioning on the zero-copy path. Value-level independence from stale buffers is not decided.",
      "DESIGN.md section 4, C14")
claim("C16", "other", SA+"path rule for sequential fallback, provenance of the dictionary argument, shape and constants of the window trim (suffix slice, W >= 65535), guard exactness of the append",
      "Decides that dependent frames decode sequentially with the rolling dictionary reaching the block decoder, and that the window update keeps a suffix of at least 65535 bytes of history and includes raw blocks. Exact decoded bytes are not decided.",
      "DESIGN.md section 4, C16")
claim("C17", "other", SA+"transition tables read from the initialiser; per-method value sets of the state word at unhandled-state exits; must-pass transitions; who-may-write option fields; reset rules",
      "Decides dispatch totality per reachable state, terminal transitions, persistence of options (only Option closures write them), Reset re-arming, latch clearing, sentinel liveness and data call order. Known findings F09, F17b, F19, F23 are reported. Emitted bytes per sequence are not decided.",
      "DESIGN.md section 4, C17")
claim("C18", "other", SA+"edge deletion for identity classification of the source error, error-absorption walk, field value-set tracking of the crState, pairing rule in the overflow writer",
      "Decides the lifecycle and error structure of the compressing reader: trailer exactly at the Reading->Flushing transition, source errors passed through unless identical to io.EOF/io.ErrUnexpectedEOF, io.EOF only when drained, no unhandled state, overflow rewind paired with truncation. Byte-exact equality with the Writer's frame and n <= len(p) as a number are not decided.",
      "DESIGN.md section 4, C18")
claim("C20", "other", SA+"analysis of cmd/lz4c type-checked against the tree (scratch module): flag-to-option dataflow with polarity, value sets of the level switch, load sites of flag variables, mode-argument provenance, client typestate over the Writer/Reader lifecycle",
      "Decides that each compress flag reaches the option its usage names with the stated polarity and after parsing, that the configured Writer is the one used, that output files get exactly the input's mode, and that Apply is only called in an accepting state (known finding F24: multi-file compress). The file round trip itself is not decided.",
      "DESIGN.md section 4, C20")
claim("C03", "other", "static analysis: abstract interpretation of decode_amd64.s in a template-polyhedra domain (exact rational LP, 64-bit wrap model, trace partitioning), structural rules for the portable decoder and the call site",
      "Every load, store and memmove of the amd64 assembly decoder is proven to stay inside src/dst/dict[0:len] on all paths for the nil/non-nil cases the call site admits, and its result is a negative constant or a cursor within [0, len(dst)]. The portable decoder is covered by structural rules (clipped capacities, recover over the body, sign-only use of the result) and, where armed, by the same prover. arm/arm64 assembly is not analysed.",
      "DESIGN.md section 4, C03")
claim("C04", "other", "static analysis: bounds prover obligations on the decoders (offset >= 1 at every distance use, read cursor = end of source on success, dictionary/destination bounds, pending length 0 at loop exit, justified dictionary error exit)",
      "Decides the error clauses of the block format that are linear facts at identifiable program points of the decoders. Byte-exact output and independence from stale destination bytes are not decided.",
      "DESIGN.md section 4, C04")
claim("C10", "other", "static analysis: abstract interpretation of both block compressors' SSA in a template-polyhedra domain with exact LP; obligations at the offset store, the literal copies and the length-byte stores",
      "Proves on all paths of Compressor.CompressBlock and CompressorHC.CompressBlock that offsets written are <= 65535 (>= 1 in the fast compressor), that every literal run starts at 0 or >= 5 bytes before the end, that every match starts >= 12 bytes before the end, that the final literal copy is complete, and that computed length bytes are <= 254. HC offset >= 1 and 'offset never reaches before the start' need an invariant over table contents and are not decided.",
      "DESIGN.md section 4, C10")
claim("C11", "other", "static analysis: same bounds prover; no-panic obligations for destination index/slice operations (fast compressor), write-extent obligations against len(dst) (both), result range, (0,nil) guard",
      "Proves that the fast compressor cannot panic on the destination, that no store/copy of either compressor reaches beyond len(dst) of the caller's slice (length, not capacity), that the returned count is within [0, len(dst)], that (0,nil) needs len(dst) < bound, and that a positive count passes through a complete final literal copy. That len(dst) >= bound always succeeds is not decided.",
      "DESIGN.md section 4, C11")
na("C01", "value-level equality decompress(compress(x)) == x over all byte strings depends on hash-table contents and match arithmetic that no sound static argument in reach can follow; its structural necessary conditions (offsets inside the window, literals flushed to the end, destination contract) are decided under C10 and C11")
for i in range(1, 21):
    id = "C%02d" % i
    if id not in CLAIMED and id not in NA:
        na(id, "needs the bounds prover (template-polyhedra engine), under construction in this session; planned rules in DESIGN.md section 4")
