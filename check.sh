#!/bin/bash
# Usage: ./check.sh Cxx quick|thorough     or     ./check.sh --replay <path>
# Static-analysis checks for pierrec/lz4 (see DESIGN.md). The analyser loads
# /repo's current working tree on every run; nothing of lz4 is executed.
set -u
cd "$(dirname "$0")"
export GOFLAGS=-mod=mod GOPROXY=off GOSUMDB=off GOTOOLCHAIN=local GOWORK=off
unset GOARCH GOOS
BIN=./bin/lz4verif
if [ ! -x "$BIN" ] || [ -n "$(find tool -newer "$BIN" -name '*.go' -print -quit 2>/dev/null)" ]; then
  ./setup.sh >/dev/null || { echo "CHECKER-TROUBLE: cannot build lz4verif"; exit 2; }
fi
REPO=${LZ4_REPO:-/repo}
if [ "${1:-}" = "--replay" ]; then
  exec "$BIN" replay -repo "$REPO" -verif "$PWD" "$2"
fi
exec "$BIN" check -repo "$REPO" -verif "$PWD" "$1" "${2:-${VERIF_TIER:-quick}}"
